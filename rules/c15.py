"""C15 -- audio-derived arrays are sample-accurate and their axes tell the truth (R15.1 - R15.4)."""

from __future__ import annotations

from sa.canon import canon
from sa.peval import peval
from sa.report import Ctx
from sa.sym import callkw, FALSE, NONE, NOT, Summary, bind_args, conjuncts, show, subst, walk

IO = "soundevent.audio.io"
AOP = "soundevent.audio.operations"
SPEC = "soundevent.audio.spectrograms"
DIMS = "soundevent.arrays.dimensions"

EXPLANATION = (
    "Static decision of the structural clauses behind sample accuracy: R15.1 load_clip computes offset = floor(start x "
    "samplerate) and samples = floor((end - start) x samplerate) with the recording's samplerate, reads the file at "
    "exactly that offset / count, and rebuilds the time axis from the *snapped* offset (start = offset / sr, end = "
    "start + samples / sr, samplerate = sr); load_recording's axis runs from 0 to the recording's duration at its "
    "samplerate; R15.2 load_audio seeks to the offset before reading `samples` frames as 2-D with zero fill; R15.3 step "
    "provenance (sibling rule): every advertised step attribute is computed from the same quantities that generate the "
    "coordinates -- frequency step = samplerate / nperseg over the very nperseg given to stft, time step = (nperseg - "
    "noverlap) / samplerate over the truncated sample counts given to stft (a requested hop that is not a whole number "
    "of samples differs from the realised one), resample step = 1 / target; R15.4 the spectrogram's time origin is the "
    "source's first time. Frame-exact equality with load_recording, strict monotonicity and axis length = data length "
    "depend on np.arange / soundfile / scipy and are not decided."
    "R15.4 also requires the caller's boundary option to reach stft unchanged (the origin rule presumes scipy's half-window extension). "
)
ASSUMPTIONS = ["soundfile.SoundFile.seek/read and scipy.signal.stft/resample semantics (trusted)",
               "scipy's stft time coordinates are k * (nperseg - noverlap) / fs (documented)"]


def floor_of(t):
    """int(np.floor(x)) / math.floor(x) / int(x // 1) -> x ; None otherwise."""
    if t[0] == "call" and t[1] == ("builtin", "int") and len(t[2]) == 1:
        inner = t[2][0]
        if inner[0] == "call" and inner[1] in (("ext", "numpy.floor"), ("ext", "math.floor")) and len(inner[2]) == 1:
            return inner[2][0], "floor"
        if inner[0] == "call" and inner[1] in (("ext", "numpy.ceil"), ("ext", "math.ceil"), ("builtin", "round"), ("ext", "numpy.round"), ("ext", "numpy.rint")):
            return inner[2][0], inner[1][1].split(".")[-1]
        return inner, "int"  # truncation == floor for non-negative arguments
    if t[0] == "call" and t[1] == ("ext", "math.floor") and len(t[2]) == 1:
        return t[2][0], "floor"
    if t[0] == "call" and t[1] in (("ext", "math.ceil"), ("builtin", "round")) and t[2]:
        return t[2][0], t[1][1].split(".")[-1]
    return None


class C15:
    def __init__(self, ctx: Ctx):
        self.ctx = ctx

    # ------------------------------------------------------------------ R15.1
    def check_load_clip(self):
        ctx = self.ctx
        s = ctx.summ.of_func(IO, "load_clip")
        file = s.module.relpath
        site = f"{file}:{s.node.lineno} load_clip"
        clip, audio_dir = ("param", "clip"), ("param", "audio_dir")
        rec = ("attr", clip, "recording")
        sr = ("attr", rec, "samplerate")
        st, en = ("attr", clip, "start_time"), ("attr", clip, "end_time")
        la = [e for e in s.calls if e.term[1] == ("global", f"{IO}:load_audio", "func")]
        if len(la) != 1:
            ctx.undec("R15.1", site, f"{len(la)} load_audio calls")
            return
        las = ctx.summ.of_func(IO, "load_audio")
        b, _, _, _ = bind_args(la[0].term, las.params)
        off, smp = b.get("offset"), b.get("samples")
        # every return path hands back the array built from that read (no shortcut that answers from something else)
        data_t = ("sub", la[0].term, ("const", 0))
        for r in s.returns:
            reads = any(x == data_t or x == la[0].term for x in walk(r.term))
            if not reads or any(c for c in conjuncts(la[0].live) if c not in conjuncts(r.live)):
                ctx.bad("R15.1", file, "load_clip", f"return {show(r.term)[:60]} under {show(r.live)[:60]}",
                        f"load_clip has a return path that does not hand back the frames read at the snapped offset "
                        f"(`{show(r.term)[:80]}` when `{show(r.live)[:80]}`): on that path the length / zero fill / time axis of the "
                        f"clip are whatever the shortcut produces", r.lineno)
            elif len(s.returns) > 1 or r.live != la[0].live:
                pass
        ok = True
        for name, term, want in (("offset", off, ("bin", "*", st, sr)), ("samples", smp, ("bin", "*", ("bin", "-", en, st), sr))):
            f = floor_of(term) if term is not None else None
            alt = canon(("bin", "*", ("attr", clip, "duration"), sr)) if name == "samples" else None
            if f is None or f[1] not in ("floor", "int") or (canon(f[0]) != canon(want) and canon(f[0]) != alt):
                ok = False
                ctx.bad("R15.1", file, "load_clip", f"{name} = {show(term)[:70] if term else '-'}",
                        f"the clip {name} must be floor({'start_time' if name == 'offset' else '(end_time - start_time)'} x samplerate) with the "
                        f"recording's samplerate; found {show(term)[:90] if term else 'nothing'}"
                        + (f" ({f[1]} instead of floor: the clip is shifted / one frame too long)" if f and f[1] not in ("floor", "int") else ""),
                        la[0].lineno)
            else:
                ctx.ok("R15.1", f"{file}:{la[0].lineno} load_clip", f"{name} = floor({show(want)[:50]})")
        # time axis from the snapped offset
        ctr = [x for e in s.events for x in walk(e.term) if x[0] == "call" and x[1] == ("global", f"{DIMS}:create_time_range", "func")]
        if not ctr:
            ctx.undec("R15.1", site, "create_time_range call not found")
            return
        trs = ctx.summ.of_func(DIMS, "create_time_range")
        tb, _, _, _ = bind_args(ctr[0], trs.params)
        if off is not None and smp is not None:
            w_start = ("bin", "/", off, sr)
            w_end = ("bin", "+", w_start, ("bin", "/", smp, sr))
            good = canon(tb.get("start_time", NONE)) == canon(w_start) and canon(tb.get("end_time", NONE)) == canon(w_end) and tb.get("samplerate") == sr \
                and tb.get("step") in (None, NONE)
            if good:
                ctx.ok("R15.1", site, "time axis rebuilt from the snapped offset: [offset/sr, offset/sr + samples/sr) at sr")
            else:
                ctx.bad("R15.1", file, "load_clip", f"create_time_range(start_time={show(tb.get('start_time', NONE))[:40]}, end_time={show(tb.get('end_time', NONE))[:40]}, samplerate={show(tb.get('samplerate', NONE))[:30]})",
                        "the clip's time axis must be rebuilt from the snapped sample offset (start = offset / samplerate, end = start + "
                        "samples / samplerate, samplerate = the recording's): using the requested clip times instead misplaces every frame "
                        "by up to one sample period and can change the axis length", s.node.lineno)
        # path
        pth = b.get("path")
        want_p = ("ite", ("cmp", "isnot", audio_dir, NONE), ("bin", "/", ("call", ("ext", "pathlib.Path"), (audio_dir,), ()), ("attr", rec, "path")), ("attr", rec, "path"))
        if pth == want_p or pth == ("ite", ("cmp", "is", audio_dir, NONE), want_p[3], want_p[2]):
            ctx.ok("R15.1", site, "reads recording.path (under audio_dir when given)")
        else:
            ctx.bad("R15.1", file, "load_clip", f"path={show(pth)[:60] if pth else '-'}", "the clip must be read from its own recording's path", la[0].lineno)
        # load_recording axis
        r = ctx.summ.of_func(IO, "load_recording")
        recp = ("param", "recording")
        ctr = [x for e in r.events for x in walk(e.term) if x[0] == "call" and x[1] == ("global", f"{DIMS}:create_time_range", "func")]
        rsite = f"{file}:{r.node.lineno} load_recording"
        if ctr:
            tb, _, _, _ = bind_args(ctr[0], trs.params)
            if tb.get("start_time") == ("const", 0) and tb.get("end_time") == ("attr", recp, "duration") and tb.get("samplerate") == ("attr", recp, "samplerate"):
                ctx.ok("R15.1", rsite, "recording axis: [0, duration) at the recording's samplerate")
            else:
                ctx.bad("R15.1", file, "load_recording", f"create_time_range({show(ctr[0])[:80]})",
                        "the recording's time axis must run from 0 to recording.duration at recording.samplerate", r.node.lineno)
        else:
            ctx.undec("R15.1", rsite, "create_time_range call not found")

    # ------------------------------------------------------------------ R15.2
    def check_load_audio(self):
        ctx = self.ctx
        s = ctx.summ.of_func(IO, "load_audio")
        file = s.module.relpath
        site = f"{file}:{s.node.lineno} load_audio"
        offset, samples = ("param", "offset"), ("param", "samples")
        seeks = [e for e in s.calls if e.term[1][0] == "attr" and e.term[1][2] == "seek"]
        reads = [e for e in s.calls if e.term[1][0] == "attr" and e.term[1][2] == "read"]
        if len(seeks) == 1 and len(reads) == 2 and self.check_load_audio_paths(s, seeks[0], reads, file, site):
            return
        if len(seeks) != 1 or len(reads) != 1:
            ctx.bad("R15.2", file, "load_audio", f"{len(seeks)} seek / {len(reads)} read calls",
                    "load_audio must seek once to the offset and read once", s.node.lineno)
            return
        # every path returns the frames that were read (no shortcut that fabricates data)
        rd = reads[0].term
        okret = bool(s.returns)
        for r in s.returns:
            if not (r.term[0] == "tuple" and len(r.term[1]) == 2 and r.term[1][0] == rd):
                okret = False
                ctx.bad("R15.2", file, "load_audio", f"return {show(r.term)[:70]} if {show(r.live)[:60]}",
                        f"load_audio returns `{show(r.term)[:80]}` under `{show(r.live)[:80]}` instead of the frames read from the file at the "
                        f"offset: the clip's content is not the file's frames on that path (zero fill past the end of file is soundfile's job "
                        f"via fill_value)", r.lineno)
        if okret:
            ctx.ok("R15.2", f"{file}:{reads[0].lineno} load_audio", "every path returns the frames read at the offset")
        if any(c[0] != "inloop" and "caught" not in str(c[0]) for c in conjuncts(reads[0].live) if c[0] not in ("inloop",)) and \
                [c for c in conjuncts(reads[0].live) if c[0] == "cmp"]:
            ctx.bad("R15.2", file, "load_audio", f"read only if {show(reads[0].live)[:80]}",
                    "the file is read only under a condition on offset/samples", reads[0].lineno)
        kw = callkw(reads[0].term)
        frames = kw.get("frames", reads[0].term[2][0] if reads[0].term[2] else None)
        want_frames = ("ite", ("cmp", "is", samples, NONE), ("const", -1), samples)
        # the position sought: the offset itself, or the offset capped at the file's length (R15.6)
        sk = seeks[0].term[2][0] if len(seeks[0].term[2]) == 1 else None
        fpv = seeks[0].term[1][1]
        frames_t = ("attr", fpv, "frames")
        lens_ = {frames_t, ("call", ("builtin", "len"), (fpv,), ())}
        capped = sk is not None and sk[0] == "call" and sk[1] in (("builtin", "min"), ("ext", "numpy.minimum")) and len(sk[2]) == 2 \
            and offset in sk[2] and any(a in lens_ for a in sk[2])
        if sk is not None and sk[0] == "ite" and sk[1][0] == "cmp" and sk[1][1] in ("lt", "le"):
            # offset if offset < frames else frames (either orientation after canonicalisation)
            a_, b_ = sk[1][2], sk[1][3]
            if {a_, b_} <= ({offset} | lens_) and offset in (a_, b_) and {sk[2], sk[3]} <= ({offset} | lens_) and sk[2] == a_ and sk[3] == b_:
                capped = True
        if capped:
            ctx.ok("R15.6", f"{file}:{seeks[0].lineno} load_audio", "seek position capped at the number of frames of the file")
        elif sk == offset:
            ctx.bad("R15.6", file, "load_audio", "fp.seek(offset) (not capped at fp.frames)",
                    "load_audio seeks to `offset` as given: libsndfile refuses a position beyond the last frame, so a clip that starts "
                    "after the end of the file (Clip(2.1, 2.5) on a 2 s recording) fails with LibsndfileError instead of coming back "
                    "zero-filled like every other clip that reaches past the end (a start exactly at the end already works)", seeks[0].lineno,
                    witness={"file_seconds": 2.0, "clip": [2.1, 2.5], "observed": "LibsndfileError: psf_fseek() failed"})
        conds = {
            "seek(offset) before read": (sk == offset or capped) and seeks[0].idx < reads[0].idx and seeks[0].term[1][1] == reads[0].term[1][1],
            "frames = samples (-1 = all)": frames in (want_frames, ("ite", ("cmp", "isnot", samples, NONE), samples, ("const", -1))),
            "always_2d=True": kw.get("always_2d") == ("const", True),
            "fill_value=0": kw.get("fill_value") in (("const", 0), ("const", 0.0)),
        }
        for name, ok in conds.items():
            if ok:
                ctx.ok("R15.2", f"{file}:{reads[0].lineno} load_audio", name)
            else:
                ctx.bad("R15.2", file, "load_audio", name,
                        f"load_audio: `{name}` does not hold (seek {show(seeks[0].term)[:40]}; read {show(reads[0].term)[:80]}): frames are "
                        f"read from the wrong position / past-the-end frames are not zero-filled / mono files lose their channel axis",
                        reads[0].lineno)

    def check_load_audio_paths(self, s, seek, reads, file, site) -> bool:
        """load_audio written with one read per case -- `samples is None`: read everything that is left; `samples = n`: read n frames
        and, where soundfile is not asked to fill (fill_value), pad the block with zeros up to n rows.  Decided per case; False
        when the code has another shape (nothing reported)."""
        ctx = self.ctx
        offset, samples = ("param", "offset"), ("param", "samples")
        SF_READ = ("frames", "dtype", "always_2d", "fill_value", "out")

        def bound(t):
            kw = callkw(t)
            for n_, a_ in zip(SF_READ, t[2]):
                kw.setdefault(n_, a_)
            return kw
        fpv = seek.term[1][1]
        if any(r.term[1][1] != fpv or r.idx < seek.idx for r in reads):
            return False
        scen = {"all": {("cmp", "is", samples, NONE): True, ("cmp", "isnot", samples, NONE): False},
                "n": {("cmp", "is", samples, NONE): False, ("cmp", "isnot", samples, NONE): True, ("cmp", "lt", samples, ("const", 0)): False,
                      ("cmp", "le", ("const", 0), samples): True, ("cmp", "le", samples, ("const", 0)): False, ("cmp", "lt", ("const", 0), samples): True}}
        picked = {}
        for name, env in scen.items():
            live = [r for r in reads if peval(r.live, env) != ("const", False)]
            if len(live) != 1 or peval(live[0].live, env) != ("const", True):
                return False
            picked[name] = live[0]
        if picked["all"] is picked["n"]:
            return False
        ok = True
        # everything that is left
        kw = bound(picked["all"].term)
        fr = peval(kw.get("frames", ("const", -1)), scen["all"])
        if fr != ("const", -1) or kw.get("always_2d") != ("const", True):
            ok = False
            ctx.bad("R15.2", file, "load_audio", f"samples=None: {show(picked['all'].term)[:70]}",
                    "without a number of samples load_audio must read all remaining frames (frames=-1) with always_2d=True", picked["all"].lineno)
        for r in s.returns:
            if peval(r.live, scen["all"]) == ("const", False):
                continue
            if not (r.term[0] == "tuple" and len(r.term[1]) == 2 and r.term[1][0] == picked["all"].term and peval(r.live, scen["all"]) == ("const", True)):
                ok = False
                ctx.bad("R15.2", file, "load_audio", f"return {show(r.term)[:70]}", "without a number of samples load_audio must return the frames it read", r.lineno)
        # n frames, zero-filled past the end of the file
        rd = picked["n"].term
        kw = bound(rd)
        if peval(kw.get("frames", ("const", -1)), scen["n"]) != samples or kw.get("always_2d") != ("const", True) \
                or kw.get("dtype", ("const", "float64")) != ("const", "float64"):
            ok = False
            ctx.bad("R15.2", file, "load_audio", f"samples=n: {show(rd)[:70]}",
                    "load_audio must read `samples` frames as float64 with always_2d=True", picked["n"].lineno)
        filled = kw.get("fill_value") in (("const", 0), ("const", 0.0))
        rets = [r for r in s.returns if peval(r.live, scen["n"]) != ("const", False)]
        rows = [("sub", ("attr", rd, "shape"), ("const", 0)), ("call", ("builtin", "len"), (rd,), ())]
        short = [("cmp", "lt", ("const", 0), ("bin", "-", samples, x)) for x in rows] + [("cmp", "lt", x, samples) for x in rows]
        pad_ok = False
        if filled:
            pad_ok = all(r.term[0] == "tuple" and len(r.term[1]) == 2 and r.term[1][0] == rd for r in rets)
        elif len(rets) == 2:
            whole = [r for r in rets if r.term[0] == "tuple" and r.term[1][0] == rd]
            padded = [r for r in rets if r not in whole]
            if len(whole) == 1 and len(padded) == 1 and padded[0].term[0] == "tuple":
                cond = [c for c in conjuncts(peval(padded[0].live, scen["n"])) if c[0] != "inloop"]
                z = padded[0].term[1][0]
                good_cond = len(cond) == 1 and cond[0] in short
                # np.zeros((samples, block.shape[1]), dtype=block.dtype) with [:rows] = block  /  np.pad(block, ((0, samples - rows), (0, 0)))
                alloc = z[0] == "call" and z[1] == ("ext", "numpy.zeros") and z[2] and z[2][0] == ("tuple", (samples, ("sub", ("attr", rd, "shape"), ("const", 1)))) \
                    and callkw(z).get("dtype", z[2][1] if len(z[2]) > 1 else None) in (("attr", rd, "dtype"), ("const", "float64"), ("ext", "numpy.float64"), ("builtin", "float"), None)
                stores = [e for e in s.of("store") if e.term[1][0] == "sub" and e.term[1][1] == z]
                assign = len(stores) == 1 and stores[0].term[2] == rd and stores[0].term[1][2] in [("slice", NONE, x, NONE) for x in rows] \
                    and stores[0].idx < padded[0].idx
                npad = z[0] == "call" and z[1] == ("ext", "numpy.pad") and len(z[2]) >= 2 and z[2][0] == rd and z[2][1][0] == "tuple" and len(z[2][1][1]) == 2 \
                    and z[2][1][1][0] in [("tuple", (("const", 0), ("bin", "-", samples, x))) for x in rows] and z[2][1][1][1] == ("tuple", (("const", 0), ("const", 0))) \
                    and callkw(z).get("mode", ("const", "constant")) == ("const", "constant") and callkw(z).get("constant_values", ("const", 0)) in (("const", 0), ("const", 0.0))
                pad_ok = good_cond and ((alloc and assign) or npad)
        if pad_ok:
            ctx.ok("R15.2", f"{file}:{picked['n'].lineno} load_audio", "frames past the end of the file are zero-filled" + ("" if filled else " (block padded with zeros up to `samples` rows)"))
        else:
            ok = False
            ctx.bad("R15.2", file, "load_audio", "zero fill past the end of the file",
                    "with a number of samples load_audio must return exactly that many frames: the frames read at the offset, followed by "
                    "zeros where the file ends (fill_value=0, or the block padded with zeros up to `samples` rows)", picked["n"].lineno)
        sk = seek.term[2][0] if len(seek.term[2]) == 1 else None
        frames_t = ("attr", fpv, "frames")
        lens_ = {frames_t, ("call", ("builtin", "len"), (fpv,), ())}
        capped = sk is not None and sk[0] == "call" and sk[1] in (("builtin", "min"), ("ext", "numpy.minimum")) and len(sk[2]) == 2 \
            and offset in sk[2] and any(a in lens_ for a in sk[2])
        if capped:
            ctx.ok("R15.6", f"{file}:{seek.lineno} load_audio", "seek position capped at the number of frames of the file")
            ctx.ok("R15.2", f"{file}:{seek.lineno} load_audio", "seek(offset) before read")
        else:
            return False if ok else True
        if ok:
            ctx.ok("R15.2", f"{file}:{picked['all'].lineno} load_audio", "every path returns the frames read at the offset")
            ctx.ok("R15.2", f"{file}:{picked['n'].lineno} load_audio", "frames = samples (-1 = all that is left, without a number)")
            ctx.ok("R15.2", f"{file}:{picked['n'].lineno} load_audio", "always_2d=True")
        return True

    # ------------------------------------------------------------------ R15.3 / R15.4
    def check_spectrogram(self):
        ctx = self.ctx
        s = ctx.summ.of_func(SPEC, "compute_spectrogram")
        file = s.module.relpath
        site = f"{file}:{s.node.lineno} compute_spectrogram"
        st = [e for e in s.calls if e.term[1] == ("ext", "scipy.signal.stft")]
        if len(st) != 1:
            ctx.undec("R15.3", site, f"{len(st)} stft calls")
            return
        kw = callkw(st[0].term)
        fs, nperseg, noverlap = kw.get("fs"), kw.get("nperseg"), kw.get("noverlap")
        if fs is None or nperseg is None or noverlap is None:
            ctx.undec("R15.3", site, "stft not called with fs / nperseg / noverlap keywords")
            return
        res = st[0].term
        freqs, times = ("sub", res, ("const", 0)), ("sub", res, ("const", 1))
        tdim = list({x for e in s.events for x in walk(e.term) if x[0] == "call" and x[1] == ("global", f"{DIMS}:create_time_dim_from_array", "func")})
        fdim = list({x for e in s.events for x in walk(e.term) if x[0] == "call" and x[1] == ("global", f"{DIMS}:create_frequency_dim_from_array", "func")})
        ts = ctx.summ.of_func(DIMS, "create_time_dim_from_array")
        fsum = ctx.summ.of_func(DIMS, "create_frequency_dim_from_array")
        if len(tdim) != 1 or len(fdim) != 1:
            ctx.undec("R15.3", site, "axis constructors not found")
            return
        fb, _, _, _ = bind_args(fdim[0], fsum.params)
        tb, _, _, _ = bind_args(tdim[0], ts.params)
        nfft = kw.get("nfft", NONE)
        if nfft not in (NONE, nperseg):
            # scipy zero-pads every window to nfft points: the bins it returns are fs / nfft apart
            if fb.get(fsum.params[0]) == freqs and canon(fb.get("step", NONE)) == canon(("bin", "/", fs, nfft)):
                ctx.ok("R15.3", site, "frequency step = fs / nfft over the nfft given to stft")
            else:
                ctx.bad("R15.3", file, "compute_spectrogram", f"stft(nperseg={show(nperseg)[:30]}, nfft={show(nfft)[:40]}); frequency step = {show(fb.get('step', NONE))[:50]}",
                        f"stft is given nfft={show(nfft)[:60]}, so the frequency bins it returns are samplerate / nfft apart, but the advertised "
                        f"step is `{show(fb.get('step', NONE))[:60]}`: for every window whose length is not nfft the frequency coordinates are "
                        f"not first + i * step (441-sample window padded to 512: bins 86.1 Hz apart, advertised 100 Hz)", st[0].lineno,
                        witness={"nperseg": 441, "nfft": 512, "samplerate": 44100, "advertised_step": 100.0, "realised_step": 86.1328125})
        elif fb.get(fsum.params[0]) == freqs and canon(fb.get("step", NONE)) == canon(("bin", "/", fs, nperseg)):
            ctx.ok("R15.3", site, "frequency step = fs / nperseg over the nperseg given to stft")
        else:
            ctx.bad("R15.3", file, "compute_spectrogram", f"frequency step = {show(fb.get('step', NONE))[:60]}",
                    "the advertised frequency step must be samplerate / nperseg with the very nperseg handed to stft "
                    f"(found {show(fb.get('step', NONE))[:80]})", s.node.lineno)
        want_t = ("bin", "/", ("bin", "-", nperseg, noverlap), fs)
        got_t = tb.get("step", NONE)
        if canon(got_t) == canon(want_t):
            ctx.ok("R15.3", site, "time step = (nperseg - noverlap) / fs over the truncated sample counts given to stft")
        else:
            ctx.bad("R15.3", file, "compute_spectrogram", f"time step = {show(got_t)[:60]}",
                    f"the advertised time step is `{show(got_t)[:80]}` but the coordinates scipy returns advance by (nperseg - noverlap) / "
                    f"samplerate over the *truncated* sample counts handed to stft: for a hop that is not a whole number of samples the "
                    f"advertised step differs from the realised one (window 0.01 s, hop 0.0033 s at 44.1 kHz: realised 0.0033107 s; "
                    f"about one full step of drift per second of audio)", s.node.lineno,
                    witness={"window_size": 0.01, "hop_size": 0.0033, "samplerate": 44100, "advertised": 0.0033, "realised": 0.0033107})
        # R15.4 origin
        arr0 = tb.get(ts.params[0])
        origin_terms = [("sub", ("attr", ("attr", ("param", "audio"), "time"), "data"), ("const", 0)),
                        ("sub", ("attr", ("sub", ("attr", ("param", "audio"), "coords"), ("const", "time")), "data"), ("const", 0))]
        ok_origin = arr0 is not None and arr0[0] == "bin" and arr0[1] == "+" and ((arr0[2] == times and arr0[3] in origin_terms) or (arr0[3] == times and arr0[2] in origin_terms))
        # scipy's times start at 0 only because the signal is extended by half a window at both ends (boundary is not None):
        # the caller's own `boundary` must reach stft unchanged (or a fixed extension mode), never be replaced by None
        bnd = kw.get("boundary", ("const", "zeros"))
        bparam = ("param", "boundary") if "boundary" in s.params else None
        ok_boundary = bnd == bparam or (bnd[0] == "const" and bnd[1] in ("zeros", "even", "odd", "constant"))
        if ok_origin and not ok_boundary:
            ctx.bad("R15.4", file, "compute_spectrogram", f"stft(boundary={show(bnd)[:60]})",
                    f"stft receives boundary={show(bnd)[:80]} instead of the caller's `boundary`: when it is None scipy does not extend the "
                    "signal and its first time is half a window (nperseg / 2 / samplerate), so `times + audio.time.data[0]` no longer "
                    "starts at the source's start", st[0].lineno, witness={"padded": False, "first_time": "start + nperseg / (2 * samplerate)"})
        elif ok_origin:
            ctx.ok("R15.4", site, "time coordinates = stft times + the source's first time")
        else:
            ctx.bad("R15.4", file, "compute_spectrogram", f"time coordinates = {show(arr0)[:60] if arr0 else '-'}",
                    "the spectrogram's time coordinates must be scipy's times shifted by the source's first time (audio.time.data[0]): a "
                    "spectrogram of a clip would otherwise start at 0 instead of the clip start", s.node.lineno)
        # the samplerate itself comes from the axis step; nperseg / noverlap by truncation
        step = ("call", ("global", f"{DIMS}:get_dim_step", "func"), (("param", "audio"), ("attr", ("attr", ("global", f"{DIMS}:Dimensions", "class"), "time"), "value")), ())
        if canon(fs) == canon(("bin", "/", ("const", 1), step)):
            ctx.ok("R15.3", site, "fs = 1 / step of the source time axis")
        else:
            ctx.bad("R15.3", file, "compute_spectrogram", f"fs = {show(fs)[:50]}", "the samplerate must be 1 / (step of the source's time axis)", s.node.lineno)

    def check_resample(self):
        ctx = self.ctx
        s = ctx.summ.of_func(AOP, "resample")
        file = s.module.relpath
        site = f"{file}:{s.node.lineno} resample"
        target = ("param", "target_samplerate")
        rs = [e for e in s.calls if e.term[1] == ("ext", "scipy.signal.resample")]
        tdim = list({x for e in s.events for x in walk(e.term) if x[0] == "call" and x[1] == ("global", f"{DIMS}:create_time_dim_from_array", "func")})
        if len(rs) != 1 or len(tdim) != 1:
            ctx.undec("R15.3", site, "scipy resample / axis constructor not found")
            return
        ts = ctx.summ.of_func(DIMS, "create_time_dim_from_array")
        tb, _, _, _ = bind_args(tdim[0], ts.params)
        res = rs[0].term
        times = ("attr", ("sub", ("attr", ("param", "array"), "coords"), ("param", "dim")), "values")
        kw = callkw(res)
        # the step the constructor records: 1 / samplerate when a samplerate is given (check_time_dim_ctor), else the step argument
        eff_step = tb.get("step", NONE)
        if tb.get("samplerate", NONE) != NONE:
            eff_step = ("bin", "/", ("const", 1), tb["samplerate"])
        if tb.get(ts.params[0]) == ("sub", res, ("const", 1)) and canon(eff_step) == canon(("bin", "/", ("const", 1), target)) and kw.get("t") == times:
            ctx.ok("R15.3", site, "resampled axis = scipy's resampled times of the source axis; step = 1 / target samplerate")
        else:
            ctx.bad("R15.3", file, "resample", f"step = {show(eff_step)[:50]}",
                    "the resampled time axis must be the times scipy derives from the source axis, advertised with step 1 / target_samplerate",
                    s.node.lineno)
        num = res[2][1] if len(res[2]) > 1 else kw.get("num")
        step = ("call", ("global", f"{DIMS}:get_dim_step", "func"), (("param", "array"), ("param", "dim")), ())
        want_num = ("call", ("builtin", "int"), (("bin", "*", ("attr", times, "size"), ("bin", "*", target, step)),), ())
        if num is not None and num[0] == "call" and num[1] == ("builtin", "int") and canon(num[2][0]) == canon(want_num[2][0]):
            ctx.ok("R15.3", site, "number of samples = int(n x target_samplerate x step)")
        else:
            ctx.bad("R15.3", file, "resample", f"num = {show(num)[:60] if num else '-'}",
                    "the resampled length must be int(n x target_samplerate x source step)", s.node.lineno)

    def check_time_dim_ctor(self):
        """the step handed to create_*_dim_from_array is recorded as given (samplerate => 1/samplerate)."""
        ctx = self.ctx
        for fname, has_sr in (("create_time_dim_from_array", True), ("create_frequency_dim_from_array", False)):
            s = ctx.summ.of_func(DIMS, fname)
            file = s.module.relpath
            site = f"{file}:{s.node.lineno} {fname}"
            step, sr, est = ("param", "step"), ("param", "samplerate"), ("param", "estimate_step")
            stepkey = ("attr", ("attr", ("global", "soundevent.arrays.attributes:DimAttrs", "class"), "step"), "value")
            def recorded(env):
                """(value recorded under the step key, data term) of the Variable returned in the scenario `env`."""
                rets = [r for r in s.returns if r.term[0] == "call" and r.term[1] == ("ext", "xarray.Variable") and peval(r.live, env) == ("const", True)]
                if len(rets) != 1 or any(peval(r.live, env)[0] != "const" for r in s.returns):
                    return None
                kw = callkw(rets[0].term)
                at = kw.get("attrs")
                val = None
                if at is not None and at[0] == "dict":
                    for k, v in at[1]:
                        if k == stepkey:
                            val = v
                for e in s.of("store"):
                    if e.term[1] == ("sub", at, stepkey) and e.idx < rets[0].idx:
                        lv = peval(e.live, env)
                        if lv[0] != "const":
                            return None
                        if lv[1]:
                            val = e.term[2]
                return (peval(val, env) if val is not None else None), kw.get("data")

            env = {("cmp", "is", step, NONE): False, ("cmp", "isnot", step, NONE): True, est: False,
                   ("cmp", "is", sr, NONE): True, ("cmp", "isnot", sr, NONE): False}
            got = recorded(env)
            if got is None:
                ctx.undec("R15.3", site, "step attribute store / Variable not found")
                continue
            v, data_t = got
            if v == step and data_t == ("param", s.params[0]):
                ctx.ok("R15.3", site, "a given step is recorded unchanged; the coordinates are stored as given")
            else:
                ctx.bad("R15.3", file, fname, f"attrs[step] = {show(v)[:40] if v else 'missing'}",
                        f"{fname} must record the step it is given (found {show(v)[:50] if v else 'no step attribute'}) and keep the coordinates unchanged",
                        s.node.lineno)
            if has_sr:
                inv = ("bin", "/", ("const", 1), sr)
                env2 = {("cmp", "is", sr, NONE): False, ("cmp", "isnot", sr, NONE): True, est: False, ("cmp", "is", step, NONE): True, ("cmp", "isnot", step, NONE): False,
                        ("cmp", "is", inv, NONE): False, ("cmp", "isnot", inv, NONE): True}
                got2 = recorded(env2)
                v2 = got2[0] if got2 else None
                if v2 is not None and canon(v2) == canon(inv):
                    ctx.ok("R15.3", site, "samplerate given: step = 1 / samplerate")
                elif got2 is None:
                    ctx.undec("R15.3", site, "samplerate scenario not resolved")
                else:
                    ctx.bad("R15.3", file, fname, f"samplerate -> step {show(v2)[:40] if v2 else 'missing'}", "with a samplerate the step must be 1 / samplerate", s.node.lineno)


def check_axes(ctx: Ctx):
    """R15.7: the arrays name their axes in the order the data has them -- (time, channel) for audio, (frequency, time, channel) for
    a spectrogram -- and every named axis gets the coordinate variable of its own kind (a time axis from a time constructor, a
    frequency axis from a frequency constructor)."""
    def axis_name(t):
        if t[0] == "const" and isinstance(t[1], str):
            return t[1]
        if t[0] == "attr" and t[2] == "value" and t[1][0] == "attr" and t[1][1][0] == "global" and t[1][1][1].endswith(":Dimensions"):
            return t[1][2]
        return None
    expected = {("soundevent.audio.io", "load_recording"): ("time", "channel"), ("soundevent.audio.io", "load_clip"): ("time", "channel"),
                ("soundevent.audio.spectrograms", "compute_spectrogram"): ("frequency", "time", "channel"),
                ("soundevent.audio.operations", "resample"): None}  # (resample keeps the dimensions of its input)
    # the transforms that work along the time axis are told which axis that is
    for modname, fname, ext in (("soundevent.audio.spectrograms", "compute_spectrogram", "scipy.signal.stft"), ("soundevent.audio.operations", "resample", "scipy.signal.resample")):
        s = ctx.summ.of_func(modname, fname)
        calls = [e for e in s.calls if e.term[1] == ("ext", ext)]
        site = f"{s.module.relpath}:{s.node.lineno} {fname}"
        for e in calls:
            ax = callkw(e.term).get("axis")
            arrp = ("param", s.params[0])
            good = ax is not None and ax[0] == "call" and ax[1] == ("attr", arrp, "get_axis_num") and len(ax[2]) == 1 \
                and (axis_name(ax[2][0]) == "time" or ax[2][0] == ("param", "dim"))
            if good:
                ctx.ok("R15.7", site, f"{ext.split('.')[-1]}(axis=<the time axis of the input>)")
            else:
                ctx.bad("R15.7", s.module.relpath, fname, f"{ext.split('.')[-1]}(axis={show(ax)[:40] if ax else 'default'})",
                        f"{fname} runs {ext} along axis {show(ax)[:40] if ax else '-1 (the default)'} instead of the time axis of its input: "
                        f"the samples of different channels are transformed as if they were consecutive in time", e.lineno)
    for (modname, fname), want in expected.items():
        s = ctx.summ.of_func(modname, fname)
        file = s.module.relpath
        site = f"{file}:{s.node.lineno} {fname}"
        das = [x for r in s.returns for x in walk(r.term) if x[0] == "call" and x[1] == ("ext", "xarray.DataArray")]
        if len(das) != 1:
            ctx.undec("R15.7", site, f"{len(das)} xr.DataArray constructions in the returned value")
            continue
        kw = callkw(das[0])
        coords = kw.get("coords")
        keys = None
        if coords is not None and coords[0] == "dict":
            keys = [(axis_name(k), v) for k, v in coords[1] if isinstance(k, tuple)]
        elif coords is not None and coords[0] in ("list", "tuple") and coords[1] and all(c_[0] == "tuple" and len(c_[1]) in (2, 3) for c_ in coords[1]):
            keys = [(axis_name(c_[1][0]), c_[1][1]) for c_ in coords[1]]  # [(name, data[, attrs]), ...]: the axes in this order
        keys = None if keys is None else [(k, v[1] if v[0] == "attr" and v[2] in ("data", "values") else v) for k, v in keys]
        dims = kw.get("dims", das[0][2][2] if len(das[0][2]) > 2 else None)
        names = None
        if dims is not None and dims[0] == "call" and dims[1] in (("builtin", "tuple"), ("builtin", "list")) and len(dims[2]) == 1:
            inner = dims[2][0]
            if inner[0] == "call" and inner[1][0] == "attr" and inner[1][2] == "keys" and not inner[2]:
                inner = inner[1][1]
            if inner[0] == "dict" and inner == coords and keys is not None:
                dims = None  # the axis names are taken from the coordinate mapping itself, in its order
        if dims is not None and dims[0] in ("tuple", "list"):
            names = tuple(axis_name(x) for x in dims[1])
        elif dims is None and keys is not None:
            names = tuple(k for k, _ in keys)  # xarray takes the order of the coordinate mapping
        if "data" not in kw and not das[0][2]:
            ctx.bad("R15.7", file, fname, "xr.DataArray(...) without data", f"{fname} builds its array without the data it computed", s.node.lineno)
        if want is None:
            if dims in (("attr", ("param", s.params[0]), "dims"), ("call", ("builtin", "tuple"), (("attr", ("param", s.params[0]), "dims"),), ()),
                        ("call", ("builtin", "list"), (("attr", ("param", s.params[0]), "dims"),), ())):
                ctx.ok("R15.7", site, "the dimensions of the input are kept")
            else:
                ctx.undec("R15.7", site, f"cannot read the axis names of the returned array: dims={show(dims)[:60] if dims else '-'}")
        elif names is None or None in names:
            ctx.undec("R15.7", site, f"cannot read the axis names of the returned array: dims={show(dims)[:60] if dims else '-'}")
        elif names != want:
            ctx.bad("R15.7", file, fname, f"dims={names}",
                    f"{fname} names the axes of its array {names}; the data it holds is laid out {want}: every coordinate is attached to "
                    f"the wrong axis (or the construction fails when the axis lengths differ)", s.node.lineno, witness={"dims": list(names), "data_layout": list(want)})
        else:
            ctx.ok("R15.7", site, f"axes named {want}, the layout of the data")
        for k, v in keys or []:
            if k in ("time", "frequency") and v[0] == "call" and v[1][0] == "global" and v[1][2] == "func":
                ctor = v[1][1].split(":")[1]
                other = "frequency" if k == "time" else "time"
                if other in ctor and k not in ctor:
                    ctx.bad("R15.7", file, fname, f"coords[{k!r}] = {ctor}(...)",
                            f"{fname} gives the {k} axis a coordinate variable built by {ctor}: the {k} axis carries {other} values and units",
                            s.node.lineno)
                else:
                    ctx.ok("R15.7", site, f"{k} axis <- {ctor}(...)")


def run(ctx: Ctx):
    ctx.rule("R15.7", "axes are named in the layout of the data; every axis gets the coordinate variable of its own kind", 5)
    ctx.rule("R15.1", "clip offset/length by floor, file read at that offset, axis from the snapped offset", 5)
    ctx.rule("R15.6", "the seek position cannot lie beyond the last frame", 1)
    ctx.rule("R15.2", "seek before read; frames=samples; 2-D; zero fill; every path returns the read frames", 5)
    ctx.rule("R15.3", "advertised steps computed from the generating quantities", 8)
    ctx.rule("R15.4", "spectrogram time origin is the source's first time", 1)
    c = C15(ctx)
    c.check_load_clip()
    c.check_load_audio()
    c.check_spectrogram()
    c.check_resample()
    c.check_time_dim_ctor()
    check_axes(ctx)
    # the clip / recording axes are built by create_time_range -> create_range_dim (anchored file arrays/dimensions.py)
    from .c16 import C16
    with ctx.delegated("C16/"):
        ctx.rule("R16.1", "recorded step == generating step; create_time_range forwards start/stop/step (step mode)", 5)
        ctx.rule("R16.5", "the trailing-element test does not index an empty range", 1)
        C16(ctx).check_range_dim(wrappers=("create_time_range",), size_mode=False)
    return EXPLANATION, ASSUMPTIONS
